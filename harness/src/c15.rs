//! C15 (pipes) and C17 (polar_array, cylinder chamfers).
use crate::parse::Tk;
use crate::proto::*;
use crate::tree::*;
use scad_tree::prelude::*;

fn dump1(f: impl FnOnce() -> Scad + std::panic::UnwindSafe) -> String {
    guard(move || {
        let t = f();
        let mut o = String::new();
        dump(&t, &mut o);
        o
    })
}

fn run_straight(tapered: bool, od1: f64, od2: f64, wall: f64, length: f64, center: bool, fn_: u64) -> (String, Res) {
    let req = format!("{} {} {} {} {} {} {}", if tapered { "tapered" } else { "straight" }, tf(od1), tf(od2), tf(wall), tf(length), tb(center), tu(fn_));
    let mut r = Res::new();
    if tapered {
        r.g("hollow", dump1(move || Pipe::tapered(od1, od2, wall, length, center, fn_)));
        r.g("solid", dump1(move || Pipe::tapered_solid(od1, od2, length, center, fn_)));
    } else {
        r.g("hollow", dump1(move || Pipe::straight(od1, wall, length, center, fn_)));
        r.g("solid", dump1(move || Pipe::straight_solid(od1, length, center, fn_)));
    }
    (req, r)
}
fn run_curved(od: f64, wall: f64, deg: f64, radius: f64, fn_: u64) -> (String, Res) {
    let req = format!("curved {} {} {} {} {}", tf(od), tf(wall), tf(deg), tf(radius), tu(fn_));
    let mut r = Res::new();
    r.g("hollow", dump1(move || Pipe::curved(od, wall, deg, radius, fn_)));
    r.g("solid", dump1(move || Pipe::curved_solid(od, deg, radius, fn_)));
    (req, r)
}
fn run_polar(s: Scad, count: u64, deg: f64) -> (String, Res) {
    let mut d = String::new();
    dump(&s, &mut d);
    let req = format!("polar {} {} {}", d, tu(count), tf(deg));
    let mut r = Res::new();
    r.g("tree", dump1(move || Scad::polar_array(&s, count, deg)));
    (req, r)
}
fn run_cylchamfer(size: f64, over: f64, radius: f64, height: f64, seg: u64) -> (String, Res) {
    let req = format!("cylchamfer {} {} {} {} {}", tf(size), tf(over), tf(radius), tf(height), tu(seg));
    let mut r = Res::new();
    r.g("uncentred", dump1(move || Scad::external_cylinder_chamfer(size, over, radius, height, seg, false)));
    r.g("centred", dump1(move || Scad::external_cylinder_chamfer(size, over, radius, height, seg, true)));
    (req, r)
}

fn dim(rng: &mut Rng) -> f64 {
    match rng.below(4) {
        0 => rng.range(1, 50) as f64,
        1 => rng.uniform(0.01, 1.0),
        2 => rng.uniform(10.0, 1000.0),
        _ => rng.uniform(1.0, 30.0),
    }
}

pub fn generate_pipes(rng: &mut Rng, thorough: bool, out: &mut Out) {
    set_plain(true);
    let n = if thorough { 20000 } else { 1500 };
    for i in 0..n {
        let od = dim(rng);
        // mostly admissible walls, sometimes too thick (must panic)
        let wall = if rng.chance(0.9) { od / 2.0 * rng.uniform(0.01, 0.99) } else { od * rng.uniform(0.5, 1.0) };
        let center = rng.chance(0.5);
        let fn_ = rng.range(3, 128) as u64;
        let (q, r) = match i % 3 {
            0 => run_straight(false, od, od, wall, dim(rng), center, fn_),
            1 => {
                let od2 = if rng.chance(0.9) { 2.0 * wall / rng.uniform(0.01, 0.99) } else { dim(rng) };
                run_straight(true, od, od2, wall, dim(rng), center, fn_)
            }
            _ => {
                let deg = match rng.below(5) {
                    0 => 360.0,
                    1 => *rng.pick(&[90.0, 180.0, 45.0, 0.0, 361.0, -5.0]),
                    _ => rng.uniform(0.001, 360.0),
                };
                run_curved(od, wall, deg, if rng.chance(0.2) { 0.0 } else { dim(rng) }, fn_)
            }
        };
        out.case(q, r);
    }
    set_plain(false);
}

pub fn generate_arrays(rng: &mut Rng, thorough: bool, out: &mut Out) {
    set_plain(true);
    let g = Gen { values: false, huge_ints: false };
    let n = if thorough { 6000 } else { 600 };
    for i in 0..n {
        if i % 3 == 2 {
            let (q, r) = run_cylchamfer(rng.uniform(0.1, 5.0), rng.uniform(0.0, 3.0), dim(rng), dim(rng), if rng.chance(0.2) { rng.below(4) } else { rng.range(3, 128) as u64 });
            out.case(q, r);
            continue;
        }
        // subtrees: sometimes themselves a union ending in a rotate (looks like a placement)
        let s = match rng.below(4) {
            0 => cube!(1.0) + rotate!([0.0, 0.0, 30.0], sphere!(2.0);),
            _ => {
                let d = rng.below(3) as u32;
                g.tree(rng, d)
            }
        };
        let (count, deg) = match rng.below(5) {
            0 => (rng.range(1, 50) as u64, 360.0),
            1 => (rng.range(2, 50) as u64, *rng.pick(&[180.0, 90.0, 1e-3, 359.999, 359.99995, 360.0 - 1e-7, 359.9999, 359.99999999999994, 360.0 - 1e-12])),
            2 => (rng.range(2, 12) as u64, rng.uniform(360.001, 500.0)), // must panic
            _ => (rng.range(2, 50) as u64, rng.uniform(0.001, 360.0)),
        };
        let (q, r) = run_polar(s, count, deg);
        out.case(q, r);
    }
    set_plain(false);
}

pub fn replay(toks: &[&str], out: &mut Out) -> bool {
    set_plain(true);
    let mut t = Tk::new(&toks[1..]);
    let (q, r) = match toks[0] {
        "straight" => run_straight(false, t.f(), t.f(), t.f(), t.f(), t.b(), t.u()),
        "tapered" => run_straight(true, t.f(), t.f(), t.f(), t.f(), t.b(), t.u()),
        "curved" => run_curved(t.f(), t.f(), t.f(), t.f(), t.u()),
        "polar" => {
            let s = crate::treeparse::tree_plain(&mut t);
            run_polar(s, t.u(), t.f())
        }
        "cylchamfer" => run_cylchamfer(t.f(), t.f(), t.f(), t.f(), t.u()),
        _ => {
            set_plain(false);
            return false;
        }
    };
    out.case(q, r);
    set_plain(false);
    true
}
