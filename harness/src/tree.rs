//! Structural dump of `Scad` trees (all fields are public) and random tree generation.
use crate::gen_enums::*;
use crate::proto::*;
use scad_tree::prelude::*;

/// f64 as bit pattern plus the text Rust's `Display` prints for it
pub static PLAIN: std::sync::atomic::AtomicBool = std::sync::atomic::AtomicBool::new(false);
/// dump numbers without their display text (trees compared structurally, C14..C18)
pub fn set_plain(on: bool) {
    PLAIN.store(on, std::sync::atomic::Ordering::Relaxed);
}
pub fn tn(x: f64) -> String {
    if PLAIN.load(std::sync::atomic::Ordering::Relaxed) {
        return tf(x);
    }
    format!("{} {}", tf(x), ts(&format!("{}", x)))
}
fn ton(x: &Option<f64>) -> String {
    match x {
        Some(x) => format!("o+ {}", tn(*x)),
        None => "o-".into(),
    }
}
fn tou(x: &Option<u64>) -> String {
    match x {
        Some(x) => format!("o+ {}", tu(*x)),
        None => "o-".into(),
    }
}
fn tnpt2(p: &Pt2) -> String {
    format!("{} {}", tn(p.x), tn(p.y))
}
fn tnpt3(p: &Pt3) -> String {
    format!("{} {} {}", tn(p.x), tn(p.y), tn(p.z))
}
fn tnpt4(p: &Pt4) -> String {
    format!("{} {} {} {}", tn(p.x), tn(p.y), tn(p.z), tn(p.w))
}
fn tpaths(p: &Paths) -> String {
    let mut o = format!("L{}", p.len());
    for i in p.iter() {
        o.push(' ');
        o.push_str(&tus(i));
    }
    o
}

pub fn dump(s: &Scad, o: &mut String) {
    let head = match &s.op {
        ScadOp::Union => "NUnion".to_string(),
        ScadOp::Difference => "NDifference".to_string(),
        ScadOp::Intersection => "NIntersection".to_string(),
        ScadOp::Hull => "NHull".to_string(),
        ScadOp::Circle { radius, fa, fs, fn_ } => format!("NCircle {} {} {} {}", tn(*radius), ton(fa), ton(fs), tou(fn_)),
        ScadOp::Sphere { radius, fa, fs, fn_ } => format!("NSphere {} {} {} {}", tn(*radius), ton(fa), ton(fs), tou(fn_)),
        ScadOp::Square { size, center } => format!("NSquare {} {}", tnpt2(size), tb(*center)),
        ScadOp::Cube { size, center } => format!("NCube {} {}", tnpt3(size), tb(*center)),
        ScadOp::Polygon { points, paths, convexity } => {
            let mut p = format!("L{}", points.len());
            for q in points.iter() {
                p.push(' ');
                p.push_str(&tnpt2(q));
            }
            let pa = match paths {
                Some(pa) => format!("o+ {}", tpaths(pa)),
                None => "o-".into(),
            };
            format!("NPolygon {} {} {}", p, pa, tu(*convexity))
        }
        ScadOp::Text { text, size, font, halign, valign, spacing, direction, language, script, fn_ } => format!(
            "NText {} {} {} k{:?} k{:?} {} k{:?} {} {} {}",
            ts(text), tn(*size), ts(font), halign, valign, tn(*spacing), direction, ts(language), ts(script), tou(fn_)
        ),
        ScadOp::Import { file, convexity } => format!("NImport {} {}", ts(file), tu(*convexity)),
        ScadOp::Projection { cut } => format!("NProjection {}", tb(*cut)),
        ScadOp::Cylinder { height, radius1, radius2, center, fa, fs, fn_ } => format!(
            "NCylinder {} {} {} {} {} {} {}",
            tn(*height), tn(*radius1), tn(*radius2), tb(*center), ton(fa), ton(fs), tou(fn_)
        ),
        ScadOp::Polyhedron { points, faces, convexity } => {
            let mut p = format!("L{}", points.len());
            for q in points.iter() {
                p.push(' ');
                p.push_str(&tnpt3(q));
            }
            format!("NPolyhedron {} {} {}", p, tpaths(faces), tu(*convexity))
        }
        ScadOp::LinearExtrude { height, center, convexity, twist, scale, slices, fn_ } => format!(
            "NLinearExtrude {} {} {} {} {} {} {}",
            tn(*height), tb(*center), tu(*convexity), tn(*twist), tnpt2(scale), tou(slices), tou(fn_)
        ),
        ScadOp::RotateExtrude { angle, convexity, fa, fs, fn_ } => {
            format!("NRotateExtrude {} {} {} {} {}", tn(*angle), tu(*convexity), ton(fa), ton(fs), tou(fn_))
        }
        ScadOp::Surface { file, center, invert, convexity } => {
            format!("NSurface {} {} {} {}", ts(file), tb(*center), tb(*invert), tu(*convexity))
        }
        ScadOp::Translate { v } => format!("NTranslate {}", tnpt3(v)),
        ScadOp::Rotate { a, a_is_scalar, v } => format!("NRotate {} {} {}", ton(a), tb(*a_is_scalar), tnpt3(v)),
        ScadOp::Scale { v } => format!("NScale {}", tnpt3(v)),
        ScadOp::Resize { newsize, auto, auto_is_vec, autovec, convexity } => format!(
            "NResize {} {} {} {} {} {} {}",
            tnpt3(newsize), tb(*auto), tb(*auto_is_vec), tb(autovec.0), tb(autovec.1), tb(autovec.2), tu(*convexity)
        ),
        ScadOp::Mirror { v } => format!("NMirror {}", tnpt3(v)),
        ScadOp::Color { rgba, color, hex, alpha } => format!(
            "NColor {} {} {} {}",
            match rgba {
                Some(p) => format!("o+ {}", tnpt4(p)),
                None => "o-".into(),
            },
            match color {
                Some(c) => format!("o+ k{:?}", c),
                None => "o-".into(),
            },
            match hex {
                Some(h) => format!("o+ {}", ts(h)),
                None => "o-".into(),
            },
            ton(alpha)
        ),
        ScadOp::Offset { r, delta, chamfer } => format!("NOffset {} {} {}", ton(r), ton(delta), tb(*chamfer)),
        ScadOp::Minkowski { convexity } => format!("NMinkowski {}", tu(*convexity)),
    };
    o.push_str(&head);
    o.push_str(&format!(" L{}", s.children.len()));
    for c in &s.children {
        o.push(' ');
        dump(c, o);
    }
}

pub fn dump_all(ts: &[Scad]) -> String {
    let mut o = format!("L{}", ts.len());
    for t in ts {
        o.push(' ');
        dump(t, &mut o);
    }
    o
}

/// Value generators ----------------------------------------------------------------------

pub struct Gen {
    /// emphasise tricky parameter values (C02) rather than shapes (C01)
    pub values: bool,
    /// allow u64 above 2^53 (known limit of the target language)
    pub huge_ints: bool,
}

impl Gen {
    pub fn num(&self, rng: &mut Rng) -> f64 {
        if !self.values {
            return match rng.below(4) {
                0 => rng.range(-20, 20) as f64,
                1 => rng.range(-200, 200) as f64 / 8.0,
                _ => (rng.uniform(-100.0, 100.0) * 1000.0).round() / 1000.0,
            };
        }
        match rng.below(18) {
            16 | 17 => {
                // a neighbour (1 or 2 ulp) of a value that OpenSCAD uses as a default or that code likes to
                // special-case: "equal to the default up to a tolerance" must not be treated as the default
                let base = [1.0f64, 10.0, 2.0, 100.0, 360.0, -1.0, 0.5, 180.0][rng.below(8) as usize];
                let k = 1 + rng.below(2);
                let bits = base.to_bits();
                f64::from_bits(if rng.chance(0.5) { bits + k } else { bits - k })
            }
            0 => 0.0,
            1 => -0.0,
            2 => 0.1 + 0.2,
            3 => 1e21,
            4 => f64::from_bits(rng.below(1 << 52).max(1)), // subnormal
            5 => 5e-324,
            6 => f64::MAX * if rng.chance(0.5) { 1.0 } else { -1.0 },
            7 => f64::MIN_POSITIVE,
            8 => 1e-7,
            9 => {
                // arbitrary finite bit pattern
                loop {
                    let x = f64::from_bits(rng.next());
                    if x.is_finite() {
                        return x;
                    }
                }
            }
            10 => rng.range(-1000000, 1000000) as f64,
            11 => 123456789.125,
            12 => rng.uniform(-1.0, 1.0) * 10f64.powi(rng.range(-30, 30) as i32),
            _ => rng.f(),
        }
    }
    pub fn int(&self, rng: &mut Rng) -> u64 {
        match rng.below(if self.values { 12 } else { 40 }) {
            0 => 0,
            1 => 1 << 53,
            2 => (1u64 << 53) - 1,
            3 => rng.below(1 << 53),
            4 if self.huge_ints && rng.chance(0.05) => u64::MAX,
            5 if self.huge_ints && rng.chance(0.05) => (1u64 << 53) + 1,
            6 => 1u64 << 60, // exactly representable power of two
            _ => rng.below(200),
        }
    }
    pub fn string(&self, rng: &mut Rng) -> String {
        let pools: [&[&str]; 6] = [
            &["a", "b", "Z", "0", " ", ".", "/", "_", "-", "stl", "model"],
            &["\"", "\\", "\\\"", "\\n", "\\u", "\\x41", "'", "{", "}", ";", "(", ")", "[", "]", "//", "/*", "*/", "\\\\"],
            &["\n", "\t", "\r", "\u{1}", "\u{7f}", "\u{1b}", "\u{85}", "\u{9f}", "\u{b}", "\u{c}"],
            &["क", "्", "ष", "ि", "नम", "ا", "لْ", "ع", "ّ", "é", "e\u{301}", "ñ", "日本", "한"],
            &["😀", "👩‍👩‍👧", "\u{200d}", "\u{fe0f}", "\u{10ffff}", "\u{e000}", "\u{feff}", "\u{2028}"],
            &["Liberation Sans", "en", "latin", "#ff00ff", "a.stl", "C:\\dir\\f.dat"],
        ];
        if !self.values && rng.chance(0.8) {
            return rng.pick(pools[5]).to_string();
        }
        let n = rng.below(8) as usize;
        let mut s = String::new();
        for _ in 0..n {
            let pool = pools[rng.below(6) as usize];
            let piece: &str = *rng.pick::<&str>(pool);
            s.push_str(piece);
        }
        s
    }
    fn of(&self, rng: &mut Rng) -> Option<f64> {
        if rng.chance(0.5) { Some(self.num(rng)) } else { None }
    }
    fn ou(&self, rng: &mut Rng) -> Option<u64> {
        if rng.chance(0.5) { Some(self.int(rng)) } else { None }
    }
    fn p2(&self, rng: &mut Rng) -> Pt2 {
        Pt2::new(self.num(rng), self.num(rng))
    }
    fn p3(&self, rng: &mut Rng) -> Pt3 {
        Pt3::new(self.num(rng), self.num(rng), self.num(rng))
    }
    fn list_len(&self, rng: &mut Rng) -> usize {
        match rng.below(6) {
            0 => 0,
            1 => 1,
            _ => rng.below(6) as usize + 2,
        }
    }
    fn paths(&self, rng: &mut Rng) -> Paths {
        let n = self.list_len(rng);
        Paths::from_paths((0..n).map(|_| {
            let m = self.list_len(rng);
            Indices::from_indices((0..m).map(|_| self.int(rng)).collect())
        }).collect())
    }

    pub fn primitive(&self, rng: &mut Rng) -> ScadOp {
        match rng.below(10) {
            0 => ScadOp::Circle { radius: self.num(rng), fa: self.of(rng), fs: self.of(rng), fn_: self.ou(rng) },
            1 => ScadOp::Square { size: self.p2(rng), center: rng.chance(0.5) },
            2 => {
                let n = self.list_len(rng);
                ScadOp::Polygon {
                    points: Pt2s::from_pt2s((0..n).map(|_| self.p2(rng)).collect()),
                    paths: if rng.chance(0.5) { Some(self.paths(rng)) } else { None },
                    convexity: self.int(rng),
                }
            }
            3 => ScadOp::Text {
                text: self.string(rng),
                size: self.num(rng),
                font: self.string(rng),
                halign: *rng.pick(HALIGNS),
                valign: *rng.pick(VALIGNS),
                spacing: self.num(rng),
                direction: *rng.pick(DIRECTIONS),
                language: self.string(rng),
                script: self.string(rng),
                fn_: self.ou(rng),
            },
            4 => ScadOp::Import { file: self.string(rng), convexity: self.int(rng) },
            5 => ScadOp::Sphere { radius: self.num(rng), fa: self.of(rng), fs: self.of(rng), fn_: self.ou(rng) },
            6 => ScadOp::Cube { size: self.p3(rng), center: rng.chance(0.5) },
            7 => ScadOp::Cylinder {
                height: self.num(rng),
                radius1: self.num(rng),
                radius2: self.num(rng),
                center: rng.chance(0.5),
                fa: self.of(rng),
                fs: self.of(rng),
                fn_: self.ou(rng),
            },
            8 => {
                let n = self.list_len(rng);
                ScadOp::Polyhedron {
                    points: Pt3s::from_pt3s((0..n).map(|_| self.p3(rng)).collect()),
                    faces: self.paths(rng),
                    convexity: self.int(rng),
                }
            }
            _ => ScadOp::Surface { file: self.string(rng), center: rng.chance(0.5), invert: rng.chance(0.5), convexity: self.int(rng) },
        }
    }

    pub fn operator(&self, rng: &mut Rng) -> ScadOp {
        match rng.below(15) {
            0 => ScadOp::Union,
            1 => ScadOp::Difference,
            2 => ScadOp::Intersection,
            3 => ScadOp::Hull,
            4 => ScadOp::Projection { cut: rng.chance(0.5) },
            5 => ScadOp::LinearExtrude {
                height: self.num(rng),
                center: rng.chance(0.5),
                convexity: self.int(rng),
                twist: self.num(rng),
                scale: self.p2(rng),
                slices: self.ou(rng),
                fn_: self.ou(rng),
            },
            6 => ScadOp::RotateExtrude { angle: self.num(rng), convexity: self.int(rng), fa: self.of(rng), fs: self.of(rng), fn_: self.ou(rng) },
            7 => ScadOp::Translate { v: self.p3(rng) },
            8 => match rng.below(3) {
                0 => ScadOp::Rotate { a: Some(self.num(rng)), a_is_scalar: true, v: Pt3::new(0.0, 0.0, 0.0) },
                1 => ScadOp::Rotate { a: Some(self.num(rng)), a_is_scalar: false, v: self.p3(rng) },
                _ => ScadOp::Rotate { a: None, a_is_scalar: false, v: self.p3(rng) },
            },
            9 => ScadOp::Scale { v: self.p3(rng) },
            10 => {
                if rng.chance(0.5) {
                    ScadOp::Resize { newsize: self.p3(rng), auto: rng.chance(0.5), auto_is_vec: false, autovec: (false, false, false), convexity: self.int(rng) }
                } else {
                    ScadOp::Resize {
                        newsize: self.p3(rng),
                        auto: false,
                        auto_is_vec: true,
                        autovec: (rng.chance(0.5), rng.chance(0.5), rng.chance(0.5)),
                        convexity: self.int(rng),
                    }
                }
            }
            11 => ScadOp::Mirror { v: self.p3(rng) },
            12 => match rng.below(3) {
                0 => ScadOp::Color { rgba: Some(Pt4::new(self.num(rng), self.num(rng), self.num(rng), self.num(rng))), color: None, hex: None, alpha: None },
                1 => ScadOp::Color { rgba: None, color: Some(*rng.pick(COLORS)), hex: None, alpha: self.of(rng) },
                _ => {
                    let mut h = String::from("#");
                    for _ in 0..[3, 4, 6, 8][rng.below(4) as usize] {
                        h.push(*rng.pick(&['0', '9', 'a', 'f', 'A', 'F', '5', 'c']));
                    }
                    ScadOp::Color { rgba: None, color: None, hex: Some(h), alpha: None }
                }
            },
            13 => {
                if rng.chance(0.5) {
                    ScadOp::Offset { r: Some(self.num(rng)), delta: None, chamfer: false }
                } else {
                    ScadOp::Offset { r: None, delta: Some(self.num(rng)), chamfer: rng.chance(0.5) }
                }
            }
            _ => ScadOp::Minkowski { convexity: self.int(rng) },
        }
    }

    /// a well-formed tree: primitives are leaves, operators have 0..6 children
    pub fn tree(&self, rng: &mut Rng, depth: u32) -> Scad {
        if depth == 0 || rng.chance(0.3) {
            if rng.chance(0.15) {
                // an operator with no children
                return Scad { op: self.operator(rng), children: Vec::new() };
            }
            return Scad { op: self.primitive(rng), children: Vec::new() };
        }
        let n = match rng.below(8) {
            0 => 0,
            1 | 2 | 3 => 1,
            4 | 5 => 2,
            _ => rng.below(5) as usize + 2,
        };
        Scad { op: self.operator(rng), children: (0..n).map(|_| self.tree(rng, depth - 1)).collect() }
    }
}
