//! C04 / C05: mesh builders of dim3.
use crate::c07::{mesh_groups, tfaces};
use crate::parse::Tk;
use crate::polys::*;
use crate::proto::*;
use scad_tree::prelude::*;
use scad_tree::Mt4;

fn run_linear(ps: Vec<Pt2>, h: f64) -> (String, Res) {
    let req = format!("linear_extrude {} {}", tpt2s(&ps), tf(h));
    let mut r = Res::new();
    mesh_groups(&mut r, "", move || Polyhedron::linear_extrude(&Pt2s::from_pt2s(ps), h));
    (req, r)
}
fn run_loft(lo: Vec<Pt2>, up: Vec<Pt2>, h: f64) -> (String, Res) {
    let req = format!("loft {} {} {}", tpt2s(&lo), tpt2s(&up), tf(h));
    let mut r = Res::new();
    mesh_groups(&mut r, "", move || Polyhedron::loft(&Pt2s::from_pt2s(lo), &Pt2s::from_pt2s(up), h));
    (req, r)
}
fn run_cylinder(radius: f64, h: f64, seg: u64) -> (String, Res) {
    let req = format!("cylinder {} {} {}", tf(radius), tf(h), tu(seg));
    let mut r = Res::new();
    mesh_groups(&mut r, "", move || Polyhedron::cylinder(radius, h, seg));
    (req, r)
}
fn run_revolve(ps: Vec<Pt2>, deg: f64, seg: u64, vol_ok: bool) -> (String, Res) {
    let req = format!("rotate_extrude {} {} {} {}", tpt2s(&ps), tf(deg), tu(seg), tb(vol_ok));
    let mut r = Res::new();
    mesh_groups(&mut r, "", move || Polyhedron::rotate_extrude(&Pt2s::from_pt2s(ps), deg, seg as usize));
    (req, r)
}
fn run_sweep(ps: Vec<Pt2>, path: Vec<Pt3>, twist: f64, closed: bool, vol_ok: bool) -> (String, Res) {
    let req = format!("sweep {} {} {} {} {}", tpt2s(&ps), tpt3s(&path), tf(twist), tb(closed), tb(vol_ok));
    let mut r = Res::new();
    mesh_groups(&mut r, "", move || Polyhedron::sweep(&Pt2s::from_pt2s(ps), &Pt3s::from_pt3s(path), twist, closed));
    (req, r)
}
fn run_xform(pts: Vec<Pt3>, faces: Vec<Vec<u64>>, d: Pt3, deg: f64) -> (String, Res) {
    let f = Faces::from_faces(faces.iter().map(|x| Indices::from_indices(x.clone())).collect());
    let req = format!("xform {} {} {} {}", tpt3s(&pts), tfaces(&f), tpt3(d), tf(deg));
    let mut r = Res::new();
    let base = Polyhedron { points: Pt3s::from_pt3s(pts), faces: f };
    let mut p = base.clone();
    p.translate(d);
    r.g("translate", tpt3s(&p.points));
    let mut p = base.clone();
    p.rotate_x(deg);
    r.g("rotate_x", tpt3s(&p.points));
    let mut p = base.clone();
    p.rotate_y(deg);
    r.g("rotate_y", tpt3s(&p.points));
    let mut p = base.clone();
    p.rotate_z(deg);
    r.g("rotate_z", tpt3s(&p.points));
    // faces after all of them (they must be untouched)
    p.translate(d);
    r.g("faces_after", tfaces(&p.faces));
    (req, r)
}

/// `Polyhedron::apply_matrix` with a full affine matrix (rotation, scale and translation parts)
fn run_xformm(pts: Vec<Pt3>, faces: Vec<Vec<u64>>, m: Mt4) -> (String, Res) {
    let f = Faces::from_faces(faces.iter().map(|x| Indices::from_indices(x.clone())).collect());
    let req = format!("xformm {} {} {}", tpt3s(&pts), tfaces(&f), tmt4(&m));
    let mut r = Res::new();
    let mut p = Polyhedron { points: Pt3s::from_pt3s(pts), faces: f };
    p.apply_matrix(&m);
    r.g("apply_matrix", tpt3s(&p.points));
    r.g("faces_after", tfaces(&p.faces));
    (req, r)
}

/// the L-shaped outline listed from a reflex-blind vertex (witness of the cap defect)
fn l_shape() -> Vec<Pt2> {
    // clockwise, starting at (1,3): that vertex does not see the whole outline
    vec![Pt2::new(1.0, 3.0), Pt2::new(1.0, 1.0), Pt2::new(3.0, 1.0), Pt2::new(3.0, 0.0), Pt2::new(0.0, 0.0), Pt2::new(0.0, 3.0)]
}

fn shrink(ps: &[Pt2], target: f64) -> Vec<Pt2> {
    let m = ps.iter().fold(1e-300f64, |m, p| m.max(p.x.abs()).max(p.y.abs()));
    ps.iter().map(|p| Pt2::new(p.x / m * target, p.y / m * target)).collect()
}

fn path(rng: &mut Rng, kind: u64, len: usize) -> (Vec<Pt3>, bool, bool) {
    // returns (path, closed, gentle)
    let len = len.max(2);
    match kind {
        0 => {
            // straight along an axis or diagonal
            let dirs = [
                Pt3::new(1.0, 0.0, 0.0), Pt3::new(-1.0, 0.0, 0.0), Pt3::new(0.0, 1.0, 0.0), Pt3::new(0.0, -1.0, 0.0),
                Pt3::new(0.0, 0.0, 1.0), Pt3::new(0.0, 0.0, -1.0), Pt3::new(1.0, 1.0, 1.0), Pt3::new(1.0, -2.0, 0.5),
                Pt3::new(-1.0, 0.3, -2.0),
            ];
            let d = *rng.pick(&dirs);
            let o = Pt3::new(rng.uniform(-5.0, 5.0), rng.uniform(-5.0, 5.0), rng.uniform(-5.0, 5.0));
            ((0..len).map(|i| o + d * (i as f64 * rng.uniform(0.8, 1.5))).collect(), false, true)
        }
        1 => {
            // helix
            let r = rng.uniform(3.0, 6.0);
            let pitch = rng.uniform(0.3, 1.0);
            ((0..len).map(|i| {
                let t = i as f64 * 0.3;
                Pt3::new(r * t.cos(), r * t.sin(), pitch * t * 3.0)
            }).collect(), false, true)
        }
        2 => {
            // closed circle in the XY plane
            let r = rng.uniform(3.0, 6.0);
            let n = len.max(8);
            ((0..n).map(|i| {
                let t = i as f64 / n as f64 * std::f64::consts::TAU;
                Pt3::new(r * t.cos(), r * t.sin(), 0.5 * (2.0 * t).sin())
            }).collect(), true, true)
        }
        3 => {
            // arc in the XZ plane that does not pass through the vertical
            let r = rng.uniform(3.0, 6.0);
            ((0..len).map(|i| {
                let t = 0.3 + i as f64 / len as f64 * 1.0;
                Pt3::new(r * t.sin(), 0.0, -r * t.cos())
            }).collect(), false, true)
        }
        5 => {
            // polyline with bends and exactly evenly spaced collinear runs (integer coordinates):
            // legs along ±X ±Y ±Z and in-plane diagonals, 2..5 equal steps each
            let dirs = [
                Pt3::new(1.0, 0.0, 0.0), Pt3::new(0.0, 1.0, 0.0), Pt3::new(0.0, 0.0, 1.0), Pt3::new(-1.0, 0.0, 0.0),
                Pt3::new(0.0, -1.0, 0.0), Pt3::new(1.0, 1.0, 0.0), Pt3::new(0.0, 1.0, 1.0), Pt3::new(1.0, 0.0, -1.0),
            ];
            let mut p = Pt3::new(0.0, 0.0, 0.0);
            let mut v = vec![p];
            let mut last = 99usize;
            while v.len() < len.max(5) {
                let mut k = rng.below(dirs.len() as u64) as usize;
                if k == last || (last < 99 && dirs[k] + dirs[last] == Pt3::new(0.0, 0.0, 0.0)) {
                    k = (k + 1) % dirs.len();
                }
                last = k;
                let step = dirs[k] * (rng.range(1, 4) as f64 * 4.0);
                for _ in 0..rng.range(2, 5) {
                    p = p + step;
                    v.push(p);
                }
            }
            (v, false, false)
        }
        6 => {
            // a closed path given with its first point repeated at the end (a hand-written loop, or a
            // sampled closed curve): the closing ring then joins two coincident rings
            let r = rng.uniform(3.0, 6.0);
            let n = len.max(6);
            let mut v: Vec<Pt3> = (0..n).map(|i| {
                let t = i as f64 / n as f64 * std::f64::consts::TAU;
                Pt3::new(r * t.cos(), r * t.sin(), 0.0)
            }).collect();
            v.push(v[0]);
            (v, true, false)
        }
        _ => {
            // random walk (may self-intersect: closedness only)
            let mut p = Pt3::new(0.0, 0.0, 0.0);
            let mut v = Vec::new();
            for _ in 0..len {
                v.push(p);
                p = p + Pt3::new(rng.uniform(-1.0, 2.0), rng.uniform(-1.0, 2.0), rng.uniform(-1.0, 2.0));
            }
            (v, rng.chance(0.3) && len >= 3, false)
        }
    }
}

pub fn generate(rng: &mut Rng, thorough: bool, out: &mut Out) {
    // witnesses first: L-shape caps in every direction, full revolve, partial revolves
    for deg in [30.0, 60.0, 90.0, 120.0, 150.0, 180.0, 250.0, 300.0, 340.0, 360.0] {
        let prof: Vec<Pt2> = l_shape().iter().map(|p| Pt2::new(p.x + 1.0, p.y)).collect();
        let (q, r) = run_revolve(prof, deg, 8, true);
        out.case(q, r);
    }
    // a full turn at every segment count (the ring angle 360/n is inexact for most n: a "is this the last
    // ring" decision taken from accumulated angles goes wrong for a few of them)
    for n in 3..=(if thorough { 720u64 } else { 200u64 }) {
        let prof = vec![Pt2::new(2.0, 1.0), Pt2::new(3.0, 1.0), Pt2::new(3.0, 0.0), Pt2::new(2.0, 0.0)];
        let (q, r) = run_revolve(prof, 360.0, n, true);
        out.case(q, r);
    }
    for d in [Pt3::new(1.0, 0.0, 0.0), Pt3::new(0.0, -1.0, 0.0), Pt3::new(0.0, 0.0, 1.0), Pt3::new(1.0, 1.0, 1.0), Pt3::new(0.0, 0.0, -1.0)] {
        let prof = shrink(&l_shape(), 0.5);
        let path: Vec<Pt3> = (0..4).map(|i| d * (i as f64)).collect();
        let (q, r) = run_sweep(prof, path, 0.0, false, true);
        out.case(q, r);
    }
    let n = if thorough { 12000 } else { 2400 };
    let max_n = if thorough { 60 } else { 24 };
    for i in 0..n {
        let prof = profile_cw(rng, max_n);
        match i % 6 {
            0 => {
                let h = if rng.chance(0.1) { rng.range(1, 10) as f64 } else { rng.uniform(0.01, 50.0) };
                let (q, r) = run_linear(prof, h);
                out.case(q, r);
            }
            1 => {
                // upper profile: a scaled and shifted copy (same vertex count, still clockwise)
                // dyadic factor and shift: exact, so exactly collinear grid outlines stay exactly collinear
                let k = *rng.pick(&[0.25, 0.5, 0.75, 1.0, 1.5, 2.0]);
                let up: Vec<Pt2> = prof.iter().map(|p| Pt2::new(p.x * k + 0.125, p.y * k - 0.25)).collect();
                let (q, r) = run_loft(prof, up, rng.uniform(0.1, 20.0));
                out.case(q, r);
            }
            2 => {
                let (q, r) = run_cylinder(rng.uniform(0.01, 100.0), rng.uniform(0.01, 100.0), rng.range(4, 64) as u64);
                out.case(q, r);
            }
            3 => {
                // keep the profile strictly on the +X side of the axis
                let minx = prof.iter().fold(f64::MAX, |m, p| m.min(p.x));
                let off = rng.uniform(0.1, 3.0) - minx;
                let prof: Vec<Pt2> = prof.iter().map(|p| Pt2::new(p.x + off, p.y)).collect();
                let deg = match rng.below(4) {
                    0 => *rng.pick(&[30.0, 45.0, 90.0, 135.0, 180.0, 270.0, 360.0, 225.0, 315.0]),
                    1 => rng.range(1, 24) as f64 * 15.0,
                    _ => rng.uniform(0.5, 360.0),
                };
                let (q, r) = run_revolve(prof, deg, rng.range(3, 64) as u64, true);
                out.case(q, r);
            }
            4 => {
                let (pk, pl) = (rng.below(8), rng.range(2, 30) as usize);
                let (pa, closed, gentle) = path(rng, pk, pl);
                let prof = shrink(&prof, rng.uniform(0.1, 0.4));
                let twist = match rng.below(4) {
                    0 => 0.0,
                    1 => 360.0 * rng.range(-2, 2) as f64,
                    _ => rng.uniform(-90.0, 90.0),
                };
                let twist = if closed { 360.0 * rng.range(-1, 1) as f64 } else { twist };
                // a strongly twisted strip between two rings intersects itself: volume sign is then undefined
                let steps = if closed { pa.len() } else { pa.len() - 1 } as f64;
                let gentle = gentle && (twist / steps).abs() <= 6.0;
                let (q, r) = run_sweep(prof, pa, twist, closed, gentle);
                out.case(q, r);
            }
            _ => {
                let m = rng.below(12) as usize;
                let pts: Vec<Pt3> = (0..m).map(|_| Pt3::new(rng.f(), rng.f(), rng.f())).collect();
                let faces: Vec<Vec<u64>> = (0..rng.below(5)).map(|_| (0..rng.range(3, 5)).map(|_| rng.below(m.max(1) as u64)).collect()).collect();
                let (q, r) = run_xform(pts.clone(), faces.clone(), Pt3::new(rng.f(), rng.f(), rng.f()), rng.uniform(-360.0, 360.0));
                out.case(q, r);
                // a full affine matrix: translation * rotation about a general axis * scale (+ pure translation now and then)
                let ax = Pt3::new(rng.uniform(-1.0, 1.0), rng.uniform(-1.0, 1.0), rng.uniform(0.1, 1.0)).normalized();
                let mat = match rng.below(4) {
                    0 => Mt4::translate_matrix(rng.uniform(-9.0, 9.0), rng.uniform(-9.0, 9.0), rng.uniform(-9.0, 9.0)),
                    1 => Mt4::translate_matrix(rng.uniform(-9.0, 9.0), rng.uniform(-9.0, 9.0), rng.uniform(-9.0, 9.0)) * Mt4::rot_vec(ax.x, ax.y, ax.z, rng.uniform(-360.0, 360.0)),
                    2 => Mt4::rot_vec(ax.x, ax.y, ax.z, rng.uniform(-360.0, 360.0)) * Mt4::scale_matrix(rng.uniform(0.5, 2.0), rng.uniform(0.5, 2.0), rng.uniform(0.5, 2.0)),
                    _ => Mt4::translate_matrix(rng.uniform(-9.0, 9.0), rng.uniform(-9.0, 9.0), rng.uniform(-9.0, 9.0)) * Mt4::rot_vec(ax.x, ax.y, ax.z, rng.uniform(-360.0, 360.0)) * Mt4::scale_matrix(rng.uniform(0.5, 2.0), rng.uniform(0.5, 2.0), rng.uniform(0.5, 2.0)),
                };
                let (q, r) = run_xformm(pts, faces, mat);
                out.case(q, r);
            }
        }
    }
}

pub fn replay(toks: &[&str], out: &mut Out) -> bool {
    let mut t = Tk::new(&toks[1..]);
    let (q, r) = match toks[0] {
        "linear_extrude" => run_linear(t.pt2s(), t.f()),
        "loft" => run_loft(t.pt2s(), t.pt2s(), t.f()),
        "cylinder" => run_cylinder(t.f(), t.f(), t.u()),
        "rotate_extrude" => run_revolve(t.pt2s(), t.f(), t.u(), t.b()),
        "sweep" => run_sweep(t.pt2s(), t.pt3s(), t.f(), t.b(), t.b()),
        "xformm" => {
            let pts = t.pt3s();
            let k = t.len();
            let faces = (0..k).map(|_| t.us()).collect();
            run_xformm(pts, faces, t.mt4())
        }
        "xform" => {
            let pts = t.pt3s();
            let k = t.len();
            let faces = (0..k).map(|_| t.us()).collect();
            run_xform(pts, faces, t.pt3(), t.f())
        }
        _ => return false,
    };
    out.case(q, r);
    true
}
