//! C12: degree-based trig helpers and approx_eq.
use crate::parse::Tk;
use crate::proto::*;
use scad_tree::{approx_eq, dacos, dasin, datan, dcos, dsin, dtan};

fn run_trig(x: f64) -> (String, Res) {
    let req = format!("trig {}", tf(x));
    let mut r = Res::new();
    r.g("dsin", tf(dsin(x))).g("dcos", tf(dcos(x))).g("dtan", tf(dtan(x)));
    r.g("dasin", tf(dasin(x))).g("dacos", tf(dacos(x))).g("datan", tf(datan(x)));
    r.g("rt_asin", tf(dasin(dsin(x)))).g("rt_acos", tf(dacos(dcos(x)))).g("rt_atan", tf(datan(dtan(x))));
    (req, r)
}
fn run_approx(a: f64, b: f64, e: f64) -> (String, Res) {
    let req = format!("approx {} {} {}", tf(a), tf(b), tf(e));
    let mut r = Res::new();
    r.g("approx", tb(approx_eq(a, b, e)));
    (req, r)
}

pub fn generate(rng: &mut Rng, thorough: bool, out: &mut Out) {
    for d in -360..=360 {
        let (q, r) = run_trig(d as f64);
        out.case(q, r);
    }
    for x in [0.5, -0.5, 1.0, -1.0, 0.0, -0.0, 0.25, 0.75, 1e-9, 0.999999, -0.999999, 89.9, -89.9, 179.5, 0.1 + 0.2] {
        let (q, r) = run_trig(x);
        out.case(q, r);
    }
    let n = if thorough { 200000 } else { 6000 };
    for i in 0..n {
        let x = match i % 5 {
            0 => rng.uniform(-1.0, 1.0),
            1 => rng.uniform(-90.0, 90.0),
            2 => rng.uniform(0.0, 180.0),
            3 => rng.uniform(-1e6, 1e6),
            _ => rng.uniform(-720.0, 720.0),
        };
        let (q, r) = run_trig(x);
        out.case(q, r);
    }
    let m = if thorough { 50000 } else { 2000 };
    for i in 0..m {
        let a = rng.f();
        let e = match i % 4 {
            0 => 1e-5,
            1 => rng.uniform(0.0, 1.0),
            2 => 0.0,
            _ => rng.uniform(-1.0, 10.0),
        };
        // pairs straddling the tolerance
        let b = match i % 6 {
            0 => a + e,
            1 => a - e,
            2 => a + e * 0.999999,
            3 => a - e * 1.000001,
            4 => a,
            _ => rng.f(),
        };
        let (q, r) = run_approx(a, b, e);
        out.case(q, r);
    }
}

pub fn replay(toks: &[&str], out: &mut Out) -> bool {
    let mut t = Tk::new(&toks[1..]);
    let (q, r) = match toks[0] {
        "trig" => run_trig(t.f()),
        "approx" => run_approx(t.f(), t.f(), t.f()),
        _ => return false,
    };
    out.case(q, r);
    true
}
