//! C19: Mersenne Twister stream and range maps.  A chosen raw output is fed through the range
//! maps by constructing (hook) a state whose next output is that value.
use crate::parse::Tk;
use crate::proto::*;
use scad_tree::MersenneTwister;

fn tg(x: f32) -> String {
    format!("g{:08x}", x.to_bits())
}

/// inverse of the MT19937 tempering
fn untemper(mut y: u32) -> u32 {
    // y ^= y >> 18
    y ^= y >> 18;
    // y ^= (y << 15) & 0xefc60000
    y ^= (y << 15) & 0xefc60000;
    // y ^= (y << 7) & 0x9d2c5680  (iterate)
    let mut x = y;
    for _ in 0..5 {
        x = y ^ ((x << 7) & 0x9d2c5680);
    }
    y = x;
    // y ^= y >> 11 (iterate)
    let mut x = y;
    for _ in 0..3 {
        x = y ^ (x >> 11);
    }
    x
}

fn with_next(raw: u32) -> MersenneTwister {
    let mut buf = vec![0u32; 624];
    buf[0] = untemper(raw);
    MersenneTwister::verif_from_state(buf, 0)
}

fn run_stream(seed: u32, count: u64) -> (String, Res) {
    let req = format!("stream {} {}", tu(seed as u64), tu(count));
    let mut r = Res::new();
    let mut mt = MersenneTwister::with_seed(seed);
    let out: Vec<u64> = (0..count).map(|_| mt.u32() as u64).collect();
    r.g("out", tus(&out));
    let mut mt2 = MersenneTwister::with_seed(seed);
    let out2: Vec<u64> = (0..count).map(|_| mt2.u32() as u64).collect();
    r.g("out2", tus(&out2));
    (req, r)
}

/// outputs from an explicit state (hook): `index` = 624 forces a regeneration at the first draw
fn run_state(buf: Vec<u32>, index: usize, count: u64) -> (String, Res) {
    let words: Vec<u64> = buf.iter().map(|x| *x as u64).collect();
    let req = format!("state {} {} {}", tus(&words), tu(index as u64), tu(count));
    let mut r = Res::new();
    let mut mt = MersenneTwister::verif_from_state(buf, index);
    let out: Vec<u64> = (0..count).map(|_| mt.u32() as u64).collect();
    r.g("out", tus(&out));
    (req, r)
}

fn run_maps(raw: u32, imin: i32, imax: i32, fmin: f32, fmax: f32, dmin: f64, dmax: f64) -> (String, Res) {
    let req = format!("maps {} {} {} {} {} {} {}", tu(raw as u64), ti(imin as i64), ti(imax as i64), tg(fmin), tg(fmax), tf(dmin), tf(dmax));
    let mut r = Res::new();
    // sanity of the hook: the constructed state really yields `raw`
    assert_eq!(with_next(raw).u32(), raw);
    r.g("f01", tg(with_next(raw).f32_0_1()));
    r.g("i32", guard(move || ti(with_next(raw).i32_minmax(imin, imax) as i64)));
    r.g("f32", tg(with_next(raw).f32_minmax(fmin, fmax)));
    r.g("f64", tf(with_next(raw).f64_minmax(dmin, dmax)));
    (req, r)
}

fn raw(rng: &mut Rng, i: u64) -> u32 {
    match i % 6 {
        0 => 0xffffffffu32 - (rng.below(4096) as u32), // the top values
        1 => rng.below(4096) as u32,
        2 => 0xffffff80u32.wrapping_add(rng.below(256) as u32).max(0xffffff00),
        3 => (1u32 << rng.below(32)).wrapping_sub(rng.below(2) as u32),
        _ => rng.next() as u32,
    }
}

pub fn generate(rng: &mut Rng, thorough: bool, out: &mut Out) {
    for seed in [0u32, 1, 4357, 5489, 0xffffffff, 19650218] {
        let (q, r) = run_stream(seed, 3000);
        out.case(q, r);
    }
    for _ in 0..(if thorough { 60 } else { 12 }) {
        let (q, r) = run_stream(rng.next() as u32, if thorough { 6000 } else { 4000 });
        out.case(q, r);
    }
    // seeds with boundary bit patterns (the masks 0x80000000 / 0x7fffffff and their neighbours, powers of two)
    let mut special: Vec<u32> = vec![0x80000000, 0x7fffffff, 0x80000001, 0x7ffffffe, 0xfffffffe, 2, 3];
    for k in 1..32 {
        special.push(1u32 << k);
        if thorough {
            special.push((1u32 << k).wrapping_sub(1));
        }
    }
    for sd in special {
        let (q, r) = run_stream(sd, 1300);
        out.case(q, r);
    }
    // explicit states (hook): boundary words everywhere / at the loop boundaries of the regeneration
    // (cells 0, 1, 226, 227, 396, 397, 622, 623) of otherwise random buffers; two regenerations each
    let words: [u32; 10] = [0x80000000, 0x7fffffff, 0xffffffff, 0, 1, 0x80000001, 0xfffffffe, 0x7ffffffe, 0x40000000, 0x9908b0df];
    for &w in &words {
        let (q, r) = run_state(vec![w; 624], 624, 1300);
        out.case(q, r);
    }
    for k in 0..(if thorough { 400 } else { 40 }) {
        let mut buf: Vec<u32> = (0..624).map(|_| rng.next() as u32).collect();
        for &cell in &[0usize, 1, 226, 227, 228, 396, 397, 398, 622, 623] {
            if rng.chance(0.6) {
                buf[cell] = words[rng.below(10) as usize];
            }
        }
        for _ in 0..rng.below(40) {
            let cell = rng.below(624) as usize;
            buf[cell] = words[rng.below(10) as usize];
        }
        let index = if k % 4 == 0 { rng.below(625) as usize } else { 624 };
        let (q, r) = run_state(buf, index, 1300);
        out.case(q, r);
    }
    // the 129 raw values for which the published f32_0_1 returned 1.0, and their neighbours
    for u in 0xffffff00u32..=0xffffffffu32 {
        let (q, r) = run_maps(u, 0, 10, 0.0, 1.0, 0.0, 1.0);
        out.case(q, r);
    }
    // the extreme raw values against many ranges, including ranges whose `min + (max - min)` rounds
    // above `max` in binary64 (a factor of exactly 1.0 would then leave the range)
    let awkward: [(f64, f64); 6] = [(-0.1, 0.3), (0.3, 0.9), (-0.7, -0.1), (0.1, 0.7), (-1e-3, 7e-3), (1.1, 3.3)];
    for &u in &[0xffffffffu32, 0xfffffffe, 0xffffff80, 0xffffff7f, 0xffffff00, 0, 1, 0xff, 0x100] {
        for k in 0..(if thorough { 400 } else { 60 }) {
            let (dmin, dmax) = if k < awkward.len() { awkward[k] } else {
                let a = rng.uniform(-10.0, 10.0);
                (a, a + rng.uniform(1e-3, 10.0))
            };
            let fmin = rng.uniform(-10.0, 10.0) as f32;
            let fmax = fmin + rng.uniform(1e-3, 10.0) as f32;
            let imin = rng.range(-1000, 1000) as i32;
            let (q, r) = run_maps(u, imin, imin + rng.range(1, 1 << 20) as i32, fmin, fmax, dmin, dmax);
            out.case(q, r);
        }
    }
    let n = if thorough { 400000 } else { 20000 };
    for i in 0..n {
        let u = raw(rng, i);
        let span = match rng.below(6) {
            0 => 1,
            1 => 2,
            2 => 3,
            3 => 1000,
            4 => if rng.chance(0.5) { (1 << 24) - 1 } else { 1 << 24 },
            _ => rng.range(1, 1 << 24),
        } as i32;
        let imin = match rng.below(4) {
            0 => 0,
            1 => -span,
            2 => rng.range(-1000000, 1000000) as i32,
            _ => rng.range(-(1 << 30), 1 << 30) as i32,
        };
        let fmin = rng.uniform(-1e6, 1e6) as f32;
        let fmax = fmin + (rng.uniform(1e-3, 1e6) as f32).max(f32::MIN_POSITIVE);
        let dmin = rng.f();
        let dmax = dmin + rng.uniform(1e-9, 1e9);
        let fmax = if fmax > fmin { fmax } else { fmin + fmin.abs().max(1.0) };
        let dmax = if dmax > dmin { dmax } else { dmin + dmin.abs().max(1.0) };
        let (q, r) = run_maps(u, imin, imin.wrapping_add(span), fmin, fmax, dmin, dmax);
        out.case(q, r);
    }
}

pub fn replay(toks: &[&str], out: &mut Out) -> bool {
    let mut t = Tk::new(&toks[1..]);
    let g = |t: &mut Tk| -> f32 {
        let s = t.tok();
        f32::from_bits(u32::from_str_radix(&s[1..], 16).unwrap())
    };
    let (q, r) = match toks[0] {
        "state" => {
            let n = t.len();
            let buf: Vec<u32> = (0..n).map(|_| t.u() as u32).collect();
            run_state(buf, t.u() as usize, t.u())
        }
        "stream" => run_stream(t.u() as u32, t.u()),
        "maps" => {
            let u = t.u() as u32;
            let a = t.i() as i32;
            let b = t.i() as i32;
            let c = g(&mut t);
            let d = g(&mut t);
            run_maps(u, a, b, c, d, t.f(), t.f())
        }
        _ => return false,
    };
    out.case(q, r);
    true
}
