//! Simple-polygon generators (simple by construction), shared by C03 C04 C05 C07.
use crate::proto::*;
use scad_tree::prelude::*;

/// counter-clockwise outline families; `size` ~ number of vertices
pub fn family(rng: &mut Rng, kind: u64, size: usize) -> Vec<Pt2> {
    let n = size.max(4);
    match kind {
        // convex: points of an ellipse at increasing angles
        0 => {
            let (a, b) = (rng.uniform(0.5, 3.0), rng.uniform(0.5, 3.0));
            let mut angles: Vec<f64> = (0..n).map(|i| (i as f64 + rng.uniform(0.05, 0.95)) / n as f64).collect();
            angles.sort_by(|x, y| x.partial_cmp(y).unwrap());
            angles.iter().map(|t| Pt2::new(a * (t * std::f64::consts::TAU).cos(), b * (t * std::f64::consts::TAU).sin())).collect()
        }
        // star-shaped about the origin with random radii
        1 => (0..n)
            .map(|i| {
                let t = (i as f64 + rng.uniform(0.1, 0.9)) / n as f64 * std::f64::consts::TAU;
                let r = rng.uniform(0.3, 2.0);
                Pt2::new(r * t.cos(), r * t.sin())
            })
            .collect(),
        // comb: base line and teeth of varying height
        2 => {
            let teeth = (n / 4).max(1);
            let mut v = vec![Pt2::new(0.0, 0.0), Pt2::new(teeth as f64 * 2.0, 0.0)];
            for k in (0..teeth).rev() {
                let x = k as f64 * 2.0;
                let h = rng.range(1, 4) as f64;
                v.push(Pt2::new(x + 2.0, h));
                v.push(Pt2::new(x + 1.0, h));
                v.push(Pt2::new(x + 1.0, 0.5));
                v.push(Pt2::new(x, 0.5));
            }
            // the last pushed point (0, 0.5) closes to (0,0)
            v
        }
        // spiral band
        3 => {
            // angular step at most 15 degrees so that the chords of the outer boundary stay outside the inner one
            let m = (n / 2).max(26);
            let turns = rng.uniform(1.0, 3.0).min((m - 1) as f64 / 24.0);
            let mut outer = Vec::new();
            let mut inner = Vec::new();
            for i in 0..m {
                let t = i as f64 / (m - 1) as f64 * turns * std::f64::consts::TAU;
                let r = 1.0 + t * 0.25;
                outer.push(Pt2::new((r + 0.3) * t.cos(), (r + 0.3) * t.sin()));
                inner.push(Pt2::new((r - 0.3) * t.cos(), (r - 0.3) * t.sin()));
            }
            // ccw: walk the band so that the interior stays on the left
            let mut v = inner;
            outer.reverse();
            v.extend(outer);
            if signed_area2(&v) < 0.0 {
                v.reverse();
            }
            v
        }
        // L shape / staircase on an integer grid
        4 => {
            let steps = (n / 2).max(2);
            let mut v = vec![Pt2::new(0.0, 0.0), Pt2::new(steps as f64, 0.0)];
            for k in 0..steps {
                v.push(Pt2::new((steps - k) as f64, (k + 1) as f64));
                v.push(Pt2::new((steps - k - 1) as f64, (k + 1) as f64));
            }
            v
        }
        // the library's own generators (they are clockwise: reverse to ccw)
        5 => {
            let mut v: Vec<Pt2> = dim2::star(rng.range(3, 12) as usize, rng.uniform(0.3, 1.0), rng.uniform(1.2, 3.0)).to_vec();
            v.reverse();
            v
        }
        6 => {
            let (w, h) = (rng.uniform(1.0, 5.0), rng.uniform(1.0, 5.0));
            let r = rng.uniform(0.05, 0.45) * w.min(h);
            let mut v: Vec<Pt2> = dim2::rounded_rect(w, h, r, (n / 4).max(1) as u64, rng.chance(0.5)).to_vec();
            v.reverse();
            v
        }
        7 => {
            let pts = rng.range(3, 8) as u64;
            let mut v: Vec<Pt2> = dim2::bezier_star(pts, 1.0, 0.3, 2.5, 0.4, ((n as u64) / (2 * pts)).max(2)).to_vec();
            v.reverse();
            v
        }
        // almost convex: a sector ("pac-man") — every corner convex except the one at the centre
        9 => {
            let m = n.max(18);
            let span = rng.uniform(200.0, 340.0f64).to_radians();
            let a0 = rng.uniform(0.0, std::f64::consts::TAU);
            let r = rng.uniform(0.8, 3.0);
            let mut v = vec![Pt2::new(0.0, 0.0)];
            for i in 0..m {
                let t = a0 + span * i as f64 / (m - 1) as f64;
                v.push(Pt2::new(r * t.cos(), r * t.sin()));
            }
            v
        }
        _ => {
            // dyadic sizes: (0,s+o), (o,s), (s,o), (s+o,0) are exactly collinear
            let mut v: Vec<Pt2> = dim2::chamfer(rng.range(8, 24) as f64 / 8.0, rng.range(1, 7) as f64 / 8.0).to_vec();
            v.reverse();
            v
        }
    }
}
pub const N_FAMILIES: u64 = 10;

pub fn signed_area2(v: &[Pt2]) -> f64 {
    let n = v.len();
    (0..n).map(|i| v[i].x * v[(i + 1) % n].y - v[(i + 1) % n].x * v[i].y).sum()
}

/// insert straight-angle vertices on some edges
pub fn add_collinear(rng: &mut Rng, v: &[Pt2]) -> Vec<Pt2> {
    let mut o = Vec::new();
    let n = v.len();
    for i in 0..n {
        o.push(v[i]);
        if rng.chance(0.3) {
            let b = v[(i + 1) % n];
            o.push(Pt2::new((v[i].x + b.x) / 2.0, (v[i].y + b.y) / 2.0));
        }
    }
    o
}

/// families whose vertices lie on an integer grid (many exactly collinear triples): they are
/// only placed by exact maps (quarter turns, power-of-two scales, integer shifts) in the main
/// stream; rounding them onto near-degenerate positions is the separate stream `near_degenerate`
pub fn is_grid_family(kind: u64) -> bool {
    kind == 2 || kind == 4 || kind == 8
}

/// exact placement for grid families: quarter turns, power-of-two scale, integer translation
pub fn place_exact(v: &[Pt2], quarter: u64, scale_pow2: i32, t: Pt2, clockwise: bool, shift: usize) -> Vec<Pt2> {
    let s = 2f64.powi(scale_pow2);
    let mut o: Vec<Pt2> = v
        .iter()
        .map(|p| {
            let (x, y) = match quarter % 4 {
                0 => (p.x, p.y),
                1 => (-p.y, p.x),
                2 => (-p.x, -p.y),
                _ => (p.y, -p.x),
            };
            Pt2::new((x + t.x) * s, (y + t.y) * s)
        })
        .collect();
    if clockwise {
        o.reverse();
    }
    let n = o.len();
    o.rotate_left(shift % n);
    o
}

/// similarity transform: rotate by `deg`, scale, translate; optional reversal and list rotation
pub fn place(v: &[Pt2], deg: f64, scale: f64, t: Pt2, clockwise: bool, shift: usize) -> Vec<Pt2> {
    let (s, c) = deg.to_radians().sin_cos();
    let mut o: Vec<Pt2> = v.iter().map(|p| Pt2::new((p.x * c - p.y * s) * scale + t.x, (p.x * s + p.y * c) * scale + t.y)).collect();
    if clockwise {
        o.reverse();
    }
    let n = o.len();
    o.rotate_left(shift % n);
    o
}

/// axis-aligned outlines with subdivided edges (straight-angle vertices on every edge, in particular
/// on the left-most vertical one): rectangle, L and staircase; counter-clockwise, integer coordinates
pub fn subdivided(kind: u64, sub: usize) -> Vec<Pt2> {
    let corners: Vec<(f64, f64)> = match kind % 3 {
        0 => vec![(0.0, 0.0), (4.0, 0.0), (4.0, 3.0), (0.0, 3.0)],
        1 => vec![(0.0, 0.0), (3.0, 0.0), (3.0, 1.0), (1.0, 1.0), (1.0, 3.0), (0.0, 3.0)],
        _ => vec![(0.0, 0.0), (3.0, 0.0), (3.0, 1.0), (2.0, 1.0), (2.0, 2.0), (1.0, 2.0), (1.0, 3.0), (0.0, 3.0)],
    };
    let n = corners.len();
    let mut v = Vec::new();
    for i in 0..n {
        let (a, b) = (corners[i], corners[(i + 1) % n]);
        for k in 0..=sub {
            if k <= sub {
                let t = k as f64 / (sub + 1) as f64;
                // dyadic subdivision keeps the points exactly on the edge
                v.push(Pt2::new(a.0 + (b.0 - a.0) * t, a.1 + (b.1 - a.1) * t));
            }
        }
    }
    v
}

/// a random clockwise profile for the mesh builders (moderate size, unit scale)
pub fn profile_cw(rng: &mut Rng, max_n: usize) -> Vec<Pt2> {
    if rng.chance(0.12) {
        // subdivided axis-aligned outline, any rotation of the vertex list
        let v = subdivided(rng.below(3), [1usize, 3][rng.below(2) as usize]);
        let shift = rng.below(v.len() as u64) as usize;
        return place_exact(&v, rng.below(4), 0, Pt2::new(0.0, 0.0), true, shift);
    }
    let kind = rng.below(N_FAMILIES);
    let n = 4 + rng.below((max_n - 3) as u64) as usize;
    let v = family(rng, kind, n);
    // the one reflex corner of an almost convex outline is put at the seam of the vertex list as often as not:
    // code that walks the outline without wrapping around sees a convex polygon then
    let shift = if kind == 9 && rng.chance(0.6) { [0usize, 1, v.len() - 1][rng.below(3) as usize] } else { rng.below(v.len() as u64) as usize };
    place(&v, 0.0, 1.0, Pt2::new(0.0, 0.0), true, shift)
}
