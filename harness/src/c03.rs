//! C03: triangulation of simple polygons.
use crate::parse::Tk;
use crate::polys::*;
use crate::proto::*;
use scad_tree::prelude::*;
use scad_tree::{triangulate2d, triangulate2d_rev, triangulate3d, triangulate3d_rev};

fn run2(name: &str, ps: Vec<Pt2>) -> (String, Res) {
    let req = format!("{} {}", name, tpt2s(&ps));
    let mut r = Res::new();
    let rev = name == "tri2d_rev";
    r.g("idx", guard(move || {
        let w = Pt2s::from_pt2s(ps);
        let i = if rev { triangulate2d_rev(&w) } else { triangulate2d(&w) };
        tus(&i)
    }));
    (req, r)
}
fn run3(name: &str, ps: Vec<Pt3>, nml: Pt3) -> (String, Res) {
    let req = format!("{} {} {}", name, tpt3s(&ps), tpt3(nml));
    let mut r = Res::new();
    let rev = name == "tri3d_rev";
    r.g("idx", guard(move || {
        let w = Pt3s::from_pt3s(ps);
        let i = if rev { triangulate3d_rev(&w, nml) } else { triangulate3d(&w, nml) };
        tus(&i)
    }));
    (req, r)
}

fn rot3(p: Pt3, ax: f64, ay: f64, az: f64) -> Pt3 {
    let (sx, cx) = ax.sin_cos();
    let (sy, cy) = ay.sin_cos();
    let (sz, cz) = az.sin_cos();
    let p = Pt3::new(p.x, p.y * cx - p.z * sx, p.y * sx + p.z * cx);
    let p = Pt3::new(p.x * cy + p.z * sy, p.y, -p.x * sy + p.z * cy);
    Pt3::new(p.x * cz - p.y * sz, p.x * sz + p.y * cz, p.z)
}

pub fn generate(rng: &mut Rng, thorough: bool, out: &mut Out) {
    let n_cases = if thorough { 40000 } else { 6000 };
    let max_n = if thorough { 400 } else { 120 };
    // the pre-repair witnesses: small scale, fine tessellation
    {
        let mut v: Vec<Pt2> = dim2::star(7, 1.0, 2.0).to_vec();
        for p in v.iter_mut() {
            *p = *p * 1e-3;
        }
        for shift in 0..v.len() {
            let mut w = v.clone();
            w.rotate_left(shift);
            let (q, r) = run2("tri2d", w);
            out.case(q, r);
        }
        let (q, r) = run2("tri2d", dim2::bezier_star(5, 2.0, 0.9, 4.0, 1.5, 200).to_vec());
        out.case(q, r);
    }
    for i in 0..n_cases {
        let mut kind = rng.below(N_FAMILIES);
        // grid families (exactly collinear triples) only where the placement can be exact: 2D
        while i % 4 >= 2 && is_grid_family(kind) {
            kind = rng.below(N_FAMILIES);
        }
        let n = 4 + rng.below(max_n - 3) as usize;
        let mut v = family(rng, kind, n);
        if rng.chance(0.2) {
            v = add_collinear(rng, &v);
        }
        let scale = match rng.below(6) {
            0 => 1.0,
            1 => 10f64.powi(rng.range(-6, -1) as i32),
            2 => 10f64.powi(rng.range(1, 6) as i32),
            _ => rng.uniform(0.1, 10.0),
        };
        let t = if rng.chance(0.5) { Pt2::new(0.0, 0.0) } else { Pt2::new(rng.uniform(-1e3, 1e3) * scale, rng.uniform(-1e3, 1e3) * scale) };
        let shift = rng.below(v.len() as u64) as usize;
        let v = if is_grid_family(kind) {
            place_exact(&v, rng.below(4), rng.range(-20, 20) as i32, Pt2::new(rng.range(-50, 50) as f64, rng.range(-50, 50) as f64), rng.chance(0.5), shift)
        } else {
            place(&v, rng.uniform(0.0, 360.0), scale, t, rng.chance(0.5), shift)
        };
        match i % 4 {
            0 => {
                let (q, r) = run2("tri2d", v);
                out.case(q, r);
            }
            1 => {
                let (q, r) = run2("tri2d_rev", v);
                out.case(q, r);
            }
            k => {
                // embed in a random plane; normal of either sign
                let (ax, ay, az) = match rng.below(4) {
                    0 => (0.0, 0.0, 0.0),
                    1 => (std::f64::consts::FRAC_PI_2 * rng.range(0, 3) as f64, std::f64::consts::FRAC_PI_2 * rng.range(0, 3) as f64, 0.0),
                    _ => (rng.uniform(0.0, 6.28), rng.uniform(0.0, 6.28), rng.uniform(0.0, 6.28)),
                };
                let off = Pt3::new(rng.uniform(-1e3, 1e3), rng.uniform(-1e3, 1e3), rng.uniform(-1e3, 1e3)) * scale;
                let ps: Vec<Pt3> = v.iter().map(|p| rot3(Pt3::new(p.x, p.y, 0.0), ax, ay, az) + off).collect();
                let sign = if rng.chance(0.5) { 1.0 } else { -1.0 };
                let nml = rot3(Pt3::new(0.0, 0.0, 1.0), ax, ay, az) * (sign * rng.uniform(0.5, 2.0));
                let (q, r) = run3(if k == 2 { "tri3d" } else { "tri3d_rev" }, ps, nml);
                out.case(q, r);
            }
        }
    }
    // small features far from the origin ("at any position … micrometre features to kilometres"): exact
    // dyadic placement — scale 2^-6 … 2^-12, offset ±2^10 … ±2^21 in both coordinates — so that every
    // orientation test of the input is decided exactly; all four entry points, both windings
    for i in 0..(if thorough { 3000 } else { 360 }) {
        let kind = [2u64, 4, 8, 2][i % 4];
        let n = 5 + rng.below(14) as usize;
        let v = family(rng, kind, n);
        let shift = rng.below(v.len() as u64) as usize;
        let sp = -(6 + rng.below(7) as i32);
        let off_pow = 10 + rng.below(12) as i32;
        let t = 2f64.powi(off_pow - sp);
        let sx = if rng.chance(0.5) { 1.0 } else { -1.0 };
        let sy = if rng.chance(0.5) { 1.0 } else { -1.0 };
        let v = place_exact(&v, rng.below(4), sp, Pt2::new(sx * t, sy * t), i % 3 == 0, shift);
        match i % 4 {
            0 => { let (q, r) = run2("tri2d", v); out.case(q, r); }
            1 => { let (q, r) = run2("tri2d_rev", v); out.case(q, r); }
            k => {
                let ps: Vec<Pt3> = v.iter().map(|p| Pt3::new(p.x, p.y, 3.0)).collect();
                let (q, r) = run3(if k == 2 { "tri3d" } else { "tri3d_rev" }, ps, Pt3::new(0.0, 0.0, if i % 8 < 4 { 1.0 } else { -1.0 }));
                out.case(q, r);
            }
        }
    }
    // planes whose normal has two or three components of exactly equal magnitude (the choice of the
    // projection axis is a tie there), either sign, scaled; integer bases keep the embedding exact
    let bases: [([f64; 3], [f64; 3]); 8] = [
        ([1.0, -1.0, 0.0], [0.0, 0.0, 1.0]),   // normal (-1,-1, 0)
        ([1.0, 1.0, 0.0], [0.0, 0.0, 1.0]),    // normal ( 1,-1, 0)
        ([1.0, 0.0, -1.0], [0.0, 1.0, 0.0]),   // normal ( 1, 0, 1)
        ([1.0, 0.0, 1.0], [0.0, 1.0, 0.0]),    // normal (-1, 0, 1)
        ([0.0, 1.0, -1.0], [1.0, 0.0, 0.0]),   // normal ( 0,-1,-1)
        ([0.0, 1.0, 1.0], [1.0, 0.0, 0.0]),    // normal ( 0, 1,-1)
        ([1.0, -1.0, 0.0], [1.0, 1.0, -2.0]),  // normal ( 2, 2, 2)
        ([1.0, 1.0, 0.0], [1.0, -1.0, 2.0]),   // normal ( 2,-2,-2)
    ];
    for i in 0..(if thorough { 4000 } else { 320 }) {
        let (u, w) = bases[i % 8];
        let kind = [1u64, 2, 3, 4, 5, 6, 7, 8][(i / 8) % 8];
        let n = 5 + rng.below(24) as usize;
        let v = family(rng, kind, n);
        let shift = rng.below(v.len() as u64) as usize;
        let v = if is_grid_family(kind) {
            place_exact(&v, rng.below(4), rng.range(-3, 3) as i32, Pt2::new(rng.range(-5, 5) as f64, rng.range(-5, 5) as f64), rng.chance(0.5), shift)
        } else {
            place(&v, 0.0, 1.0, Pt2::new(0.0, 0.0), rng.chance(0.5), shift)
        };
        let ps: Vec<Pt3> = v.iter().map(|p| Pt3::new(p.x * u[0] + p.y * w[0], p.x * u[1] + p.y * w[1], p.x * u[2] + p.y * w[2])).collect();
        let nml = Pt3::new(u[1] * w[2] - u[2] * w[1], u[2] * w[0] - u[0] * w[2], u[0] * w[1] - u[1] * w[0]);
        let k = [1.0, -1.0, 0.5, -2.0][(i / 64) % 4];
        let (q, r) = run3(if i % 2 == 0 { "tri3d" } else { "tri3d_rev" }, ps, nml * k);
        out.case(q, r);
    }
    // straight-angle vertices on axis-aligned edges: every cyclic rotation of the list, both windings,
    // quarter turns, all four entry points
    for kind in 0..3u64 {
        for sub in [1usize, 3] {
            let base = subdivided(kind, sub);
            for quarter in 0..(if thorough { 4 } else { 2 }) {
                for cw in [false, true] {
                    for shift in 0..base.len() {
                        let v = place_exact(&base, quarter, 0, Pt2::new(0.0, 0.0), cw, shift);
                        let (q, r) = run2("tri2d", v.clone());
                        out.case(q, r);
                        let (q, r) = run2("tri2d_rev", v.clone());
                        out.case(q, r);
                        if shift % 3 == 0 {
                            let ps: Vec<Pt3> = v.iter().map(|p| Pt3::new(p.x, p.y, 1.0)).collect();
                            let (q, r) = run3("tri3d", ps.clone(), Pt3::new(0.0, 0.0, 1.0));
                            out.case(q, r);
                            let (q, r) = run3("tri3d_rev", ps, Pt3::new(0.0, 0.0, -1.0));
                            out.case(q, r);
                        }
                    }
                }
            }
        }
    }
    // near-degenerate stream: grid outlines (vertices exactly on chords between other vertices)
    // rounded by an inexact rotation — the known limit of the floating-point ear test
    for i in 0..(if thorough { 400 } else { 40 }) {
        let kind = [2u64, 4, 8][i % 3];
        let sz = 6 + rng.below(20) as usize;
        let v = family(rng, kind, sz);
        let shift = rng.below(v.len() as u64) as usize;
        let v = place(&v, rng.uniform(1.0, 89.0), rng.uniform(0.5, 5.0), Pt2::new(0.0, 0.0), rng.chance(0.5), shift);
        let (q, r) = run2(if i % 2 == 0 { "tri2d" } else { "tri2d_rev" }, v);
        out.case(q, r);
    }
    // large outlines (past i16::MAX in the thorough tier)
    let big: Vec<usize> = if thorough { vec![2000, 5000, 40000] } else { vec![1500] };
    for n in big {
        let v: Vec<Pt2> = dim2::circle(10.0, n as u64).to_vec();
        let (q, r) = run2("tri2d", v);
        out.case(q, r);
        if n <= 5000 {
            let v = place(&family(rng, 1, n), 0.0, 1.0, Pt2::new(0.0, 0.0), true, 0);
            let (q, r) = run2("tri2d", v);
            out.case(q, r);
        }
    }
}

pub fn replay(toks: &[&str], out: &mut Out) -> bool {
    let mut t = Tk::new(&toks[1..]);
    let (q, r) = match toks[0] {
        "tri2d" | "tri2d_rev" => run2(toks[0], t.pt2s()),
        "tri3d" | "tri3d_rev" => run3(toks[0], t.pt3s(), t.pt3()),
        _ => return false,
    };
    out.case(q, r);
    true
}
