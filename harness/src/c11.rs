//! C11: Pt2/Pt3/Pt4 arithmetic.  One op per type computes every operator on the same operands
//! so that the driver can check them against each other.
use crate::parse::Tk;
use crate::proto::*;
use scad_tree::prelude::*;

fn comp(rng: &mut Rng) -> f64 {
    match rng.below(24) {
        0 => 0.0,
        1 => -0.0,
        _ => rng.f(),
    }
}
/// components pairwise distinct in magnitude, so that a swapped or copied component shows
fn distinct(rng: &mut Rng, n: usize) -> Vec<f64> {
    loop {
        let v: Vec<f64> = (0..n).map(|_| comp(rng)).collect();
        let mut ok = true;
        for i in 0..n {
            for j in 0..i {
                if v[i].abs() == v[j].abs() && v[i] != 0.0 {
                    ok = false;
                }
            }
        }
        if ok {
            return v;
        }
    }
}

fn run_pt2(a: Pt2, b: Pt2, k: f64, t: f64, i: u64, v: f64) -> (String, Res) {
    let req = format!("pt2 {} {} {} {} {} {}", tpt2(a), tpt2(b), tf(k), tf(t), tu(i), tf(v));
    let mut r = Res::new();
    r.g("add", tpt2(a + b)).g("sub", tpt2(a - b)).g("mul", tpt2(a * k)).g("div", tpt2(a / k));
    r.g("neg", tpt2(-a));
    let mut c = a;
    c += b;
    r.g("add_assign", tpt2(c));
    c = a;
    c -= b;
    r.g("sub_assign", tpt2(c));
    c = a;
    c *= k;
    r.g("mul_assign", tpt2(c));
    c = a;
    c /= k;
    r.g("div_assign", tpt2(c));
    r.g("dot", tf(a.dot(b))).g("len2", tf(a.len2())).g("len", tf(a.len()));
    r.g("normalized", tpt2(a.normalized()));
    c = a;
    c.normalize();
    r.g("normalize", tpt2(c));
    r.g("lerp", tpt2(a.lerp(b, t))).g("lerp0", tpt2(a.lerp(b, 0.0))).g("lerp1", tpt2(a.lerp(b, 1.0)));
    r.g("to_xz", tpt3(a.to_xz())).g("as_pt3", tpt3(a.as_pt3(v)));
    r.g("get", guard(move || tf(a[i as usize])));
    r.g("set", guard(move || {
        let mut c = a;
        c[i as usize] = v;
        tpt2(c)
    }));
    (req, r)
}

fn run_pt3(a: Pt3, b: Pt3, k: f64, t: f64, i: u64, v: f64) -> (String, Res) {
    let req = format!("pt3 {} {} {} {} {} {}", tpt3(a), tpt3(b), tf(k), tf(t), tu(i), tf(v));
    let mut r = Res::new();
    r.g("add", tpt3(a + b)).g("sub", tpt3(a - b)).g("mul", tpt3(a * k)).g("div", tpt3(a / k));
    r.g("neg", tpt3(-a));
    let mut c = a;
    c += b;
    r.g("add_assign", tpt3(c));
    c = a;
    c -= b;
    r.g("sub_assign", tpt3(c));
    c = a;
    c *= k;
    r.g("mul_assign", tpt3(c));
    c = a;
    c /= k;
    r.g("div_assign", tpt3(c));
    r.g("dot", tf(a.dot(b))).g("cross", tpt3(a.cross(b)));
    r.g("len2", tf(a.len2())).g("len", tf(a.len()));
    r.g("normalized", tpt3(a.normalized()));
    c = a;
    c.normalize();
    r.g("normalize", tpt3(c));
    r.g("lerp", tpt3(a.lerp(b, t))).g("lerp0", tpt3(a.lerp(b, 0.0))).g("lerp1", tpt3(a.lerp(b, 1.0)));
    r.g("as_pt4", tpt4(a.as_pt4(v)));
    r.g("get", guard(move || tf(a[i as usize])));
    r.g("set", guard(move || {
        let mut c = a;
        c[i as usize] = v;
        tpt3(c)
    }));
    (req, r)
}

fn run_pt4(a: Pt4, b: Pt4, k: f64, t: f64, i: u64, v: f64) -> (String, Res) {
    let req = format!("pt4 {} {} {} {} {} {}", tpt4(a), tpt4(b), tf(k), tf(t), tu(i), tf(v));
    let mut r = Res::new();
    r.g("add", tpt4(a + b)).g("sub", tpt4(a - b)).g("mul", tpt4(a * k)).g("div", tpt4(a / k));
    r.g("neg", tpt4(-a));
    let mut c = a;
    c += b;
    r.g("add_assign", tpt4(c));
    c = a;
    c -= b;
    r.g("sub_assign", tpt4(c));
    c = a;
    c *= k;
    r.g("mul_assign", tpt4(c));
    c = a;
    c /= k;
    r.g("div_assign", tpt4(c));
    r.g("dot", tf(a.dot(b))).g("cross", tpt4(a.cross(b)));
    r.g("len2", tf(a.len2())).g("len", tf(a.len()));
    r.g("normalized", tpt4(a.normalized()));
    c = a;
    c.normalize();
    r.g("normalize", tpt4(c));
    r.g("lerp", tpt4(a.lerp(b, t))).g("lerp0", tpt4(a.lerp(b, 0.0))).g("lerp1", tpt4(a.lerp(b, 1.0)));
    r.g("as_pt3", tpt3(a.as_pt3()));
    r.g("get", guard(move || tf(a[i as usize])));
    r.g("set", guard(move || {
        let mut c = a;
        c[i as usize] = v;
        tpt4(c)
    }));
    (req, r)
}

fn run_pts2(ps: Vec<Pt2>, d: Pt2) -> (String, Res) {
    let req = format!("pts2 {} {}", tpt2s(&ps), tpt2(d));
    let mut r = Res::new();
    let mut w = Pt2s::from_pt2s(ps);
    w.translate(d);
    r.g("translate", tpt2s(&w));
    (req, r)
}

fn run_pts3(ps: Vec<Pt3>, d: Pt3, ps2: Vec<Pt2>, z: f64) -> (String, Res) {
    let req = format!("pts3 {} {} {} {}", tpt3s(&ps), tpt3(d), tpt2s(&ps2), tf(z));
    let mut r = Res::new();
    let mut w = Pt3s::from_pt3s(ps);
    w.translate(d);
    r.g("translate", tpt3s(&w));
    let w2 = Pt3s::from_pt2s(&Pt2s::from_pt2s(ps2), z);
    r.g("from_pt2s", tpt3s(&w2));
    (req, r)
}

pub fn generate(rng: &mut Rng, thorough: bool, out: &mut Out) {
    // very short and very long vectors (normalisation, lengths)
    for e in [-150i32, -60, -20, -12, -9, -8, -7, -5, 5, 9, 20, 60] {
        let s = 10f64.powi(e);
        let (q, r) = run_pt2(Pt2::new(1.0 * s, -2.0 * s), Pt2::new(3.0 * s, 0.5 * s), 2.0, 0.25, 1, 1.0);
        out.case(q, r);
        let (q, r) = run_pt3(Pt3::new(1.0 * s, 2.0 * s, -2.0 * s), Pt3::new(0.5 * s, -3.0 * s, 4.0 * s), 2.0, 0.25, 2, 1.0);
        out.case(q, r);
        let (q, r) = run_pt4(Pt4::new(1.0 * s, 2.0 * s, -2.0 * s, 7.0), Pt4::new(0.5 * s, -3.0 * s, 4.0 * s, -1.0), 2.0, 0.25, 3, 1.0);
        out.case(q, r);
    }
    let n = if thorough { 60000 } else { 3000 };
    for it in 0..n {
        let k = rng.fnz();
        let t = match rng.below(6) {
            0 => 0.0,
            1 => 1.0,
            2 => 0.5,
            _ => rng.uniform(-1.0, 2.0),
        };
        let v = rng.f();
        match it % 3 {
            0 => {
                let c = distinct(rng, 4);
                let i = if rng.chance(0.1) { rng.below(6) + 2 } else { rng.below(2) };
                let (q, r) = run_pt2(Pt2::new(c[0], c[1]), Pt2::new(c[2], c[3]), k, t, i, v);
                out.case(q, r);
            }
            1 => {
                let c = distinct(rng, 6);
                let i = if rng.chance(0.1) { rng.below(6) + 3 } else { rng.below(3) };
                let (q, r) = run_pt3(Pt3::new(c[0], c[1], c[2]), Pt3::new(c[3], c[4], c[5]), k, t, i, v);
                out.case(q, r);
            }
            _ => {
                let c = distinct(rng, 8);
                let i = if rng.chance(0.1) { rng.below(6) + 4 } else { rng.below(4) };
                let (q, r) = run_pt4(
                    Pt4::new(c[0], c[1], c[2], c[3]),
                    Pt4::new(c[4], c[5], c[6], c[7]),
                    k, t, i, v,
                );
                out.case(q, r);
            }
        }
    }
    let m = if thorough { 4000 } else { 300 };
    for it in 0..m {
        let len = match it % 4 {
            0 => 0,
            1 => 1,
            2 => 7,
            _ => rng.below(40) as usize,
        };
        if it % 2 == 0 {
            let ps: Vec<Pt2> = (0..len).map(|_| Pt2::new(rng.f(), rng.f())).collect();
            let (q, r) = run_pts2(ps, Pt2::new(rng.f(), rng.f()));
            out.case(q, r);
        } else {
            let ps: Vec<Pt3> = (0..len).map(|_| Pt3::new(rng.f(), rng.f(), rng.f())).collect();
            let ps2: Vec<Pt2> = (0..len).map(|_| Pt2::new(rng.f(), rng.f())).collect();
            let (q, r) = run_pts3(ps, Pt3::new(rng.f(), rng.f(), rng.f()), ps2, rng.f());
            out.case(q, r);
        }
    }
}

pub fn replay(toks: &[&str], out: &mut Out) -> bool {
    let mut t = Tk::new(&toks[1..]);
    let (q, r) = match toks[0] {
        "pt2" => run_pt2(t.pt2(), t.pt2(), t.f(), t.f(), t.u(), t.f()),
        "pt3" => run_pt3(t.pt3(), t.pt3(), t.f(), t.f(), t.u(), t.f()),
        "pt4" => run_pt4(t.pt4(), t.pt4(), t.f(), t.f(), t.u(), t.f()),
        "pts2" => run_pts2(t.pt2s(), t.pt2()),
        "pts3" => run_pts3(t.pt3s(), t.pt3(), t.pt2s(), t.f()),
        _ => return false,
    };
    out.case(q, r);
    true
}
